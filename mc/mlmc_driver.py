"""Closing the multilevel engine with a scripted coupling process (DESIGN 3.4, C05/C06).

The real rpylib.montecarlo.multilevel.engine.Engine, MLMCStatistics, MLMCPath, Product, ControlVariates and
ConfigurationMultiLevel run unchanged. The coupling process is a duck-typed stand-in whose k-th sample at level l carries
an identifiable value and whose statistical regime (mean / variance of fine-coarse) per (level, batch) is an environment
answer taken from a Chooser. A shared Recorder (survives the engine's deepcopies) is the boring reference model: a list of
(fine payoff underlying, coarse payoff underlying) per level, appended at every simulate call.
"""
from __future__ import annotations

import copy
import itertools
import math
import weakref

import numpy as np

REGIMES = [
    # (name, mean factor, sd factor, mean decays with level?, sd decays with level?)
    ("default", 0.5, 1.0, True, True),
    ("zero-variance", 0.5, 0.0, True, True),
    ("large-variance", 0.5, 2.0, True, False),
    ("zero-mean", 0.0, 1.0, True, True),
    ("persistent-mean", 1.0, 1.0, False, True),
]


_RECORDERS = weakref.WeakValueDictionary()  # uid -> Recorder (pickled copies of the scripted process find theirs here)
_UID = itertools.count()


def _recorder_by_uid(uid):
    return _RECORDERS[uid]


class Recorder:
    """Reference model + chooser holder. Deep copies AND pickled (dill) copies of the scripted process share it: what a
    simulated pool worker simulates is logged in the one reference model, as the engine's parent process must see it."""

    def __init__(self, chooser, regimes=None):
        self._uid = next(_UID)
        _RECORDERS[self._uid] = self
        self.pending = {}  # level -> a new batch starts at the next simulate call of that level
        self.regime = {}  # level -> regime of the batch in progress
        self.chooser = chooser
        self.regimes = regimes or REGIMES
        self.samples = {}  # level -> list of (fine_underlying, coarse_underlying)
        self.batches = {}  # level -> number of batches started
        self.regime_log = []  # (level, batch, regime name)
        self.next_level_calls = []  # levels created
        self.simulate_levels = []  # level of every simulate call (for the "never above maximum" oracle)
        self.events = []  # coarse trajectory of the run
        self.batch_sizes = {}  # level -> number of samples simulated in each batch (the tally of the work: reference_work)
        self.measured = {}  # level -> batch of the last sample simulated since reset_one_simulation_cost ("measured" costs)

    def __deepcopy__(self, memo):
        return self

    def __reduce__(self):
        return _recorder_by_uid, (self._uid,)


# ----------------------------------------------------------------------------------------------------------------------
# cost of one simulation, per level (what one_simulation_cost returns): value classes and forms
# ----------------------------------------------------------------------------------------------------------------------
_IRREGULAR = (0.9, 3, 0.31, 2.6, 0.07, 5.3, 1, 0.45, 7.7, 0.2, 11.5, 0.6)  # neither monotone nor geometric; ints among them

COST_KINDS = (
    "pow2",  # float(2**l): the historical cost, integer VALUED (Python float)
    "pow2-int",  # 2**l as a Python int (LevyProcess.one_simulation_cost returns the int 0)
    "frac",  # 0.37 * 2**l as numpy float64: what the library's chains return, intensity * (dimension + log(states))
    "tiny",  # 0.0137 * 1.5**l: a whole pass costs less than 1 (low intensity, coarse grid, few paths)
    "large",  # 3.3e9 * 2**l + 0.25 (numpy float64): beyond the 32-bit integers, fractional part within the precision
    "huge",  # 1.7e19 * 2**l: a pass costs more than 2**63
    "irregular",  # a table that is neither monotone nor geometric in the level (Python floats and ints)
    "measured",  # 0.37 * 2**l * (1 + b / 4), b = batch (pass) the level's last sample belongs to: a cost measured while
    #              simulating (as the copula coupling's sampling cost), differs from pass to pass
    "zero-int",  # the int 0 of LevyProcess / Simulation (fixed-level variant only: the allocation with zero costs is C06's)
)


def level_cost(kind, level, batch=None):
    """The value (and form) the scripted coupling of that cost kind returns for one simulation of a level whose last
    sample since reset_one_simulation_cost was simulated in batch `batch` (None: no sample since)."""
    if kind == "pow2":
        return float(2 ** level)
    if kind == "pow2-int":
        return 2 ** level
    if kind == "frac":
        return np.float64(0.37) * np.float64(2 ** level)
    if kind == "tiny":
        return 0.0137 * 1.5 ** level
    if kind == "large":
        return np.float64(3.3e9 * 2 ** level + 0.25)
    if kind == "huge":
        return 1.7e19 * 2 ** level
    if kind == "irregular":
        return _IRREGULAR[level % len(_IRREGULAR)]
    if kind == "measured":
        return np.float64(0.37 * 2 ** level) * np.float64(1.0 + 0.25 * (batch or 0))
    if kind == "zero-int":
        return 0
    raise ValueError(kind)


def reference_work(kind, batch_sizes, nlev):
    """Exact (rational) work of the simulated samples per level: every sample of batch b of level l costs level_cost(kind, l,
    b); batch_sizes: level -> list of the number of samples simulated in each batch (Recorder.batch_sizes)."""
    from fractions import Fraction

    out = []
    for level in range(nlev):
        w = Fraction(0)
        for b, n in enumerate(batch_sizes.get(level, ())):
            w += Fraction(float(level_cost(kind, level, b))) * int(n)
        out.append(w)
    return out


def w_k(k: int) -> float:
    """Deterministic, pairwise distinct 'standardised' values with mean ~0 and second moment ~1.2 over a period."""
    return (1.0 if k % 2 == 0 else -1.0) * (1.0 + (k % 8) / 8.0) + k * 2.0 ** -20


class _FakeCumulant:
    def cumulant1(self, t):
        return 0.0

    def cumulant2(self, t):
        return 1.0

    def cumulant4(self, t):
        return 0.0


class ScriptedModel:
    def __init__(self, representation):
        self.process_representation = representation
        self.cumulant = _FakeCumulant()

    def dimension_model(self):
        return 1

    def dimension(self):
        return 1

    def x0_value(self):
        return 0.0

    def characteristic_function(self, t, x):
        return np.exp(-0.5 * x * x * t)

    def df(self, t):
        return 1.0


class ScriptedFine:
    def __init__(self, representation, df):
        self.process_representation = representation
        self._df = df

    def deterministic_path(self, times):
        return np.zeros_like(np.asarray(times, dtype=float))

    def df(self, t):
        return self._df


class ScriptedCoupling:
    """Duck-typed CouplingProcess. Level 0 samples: fine = m + s*w_k (coarse is set to 0 by the engine).
    Level l>=1 samples: coarse = 1000*l + k (unique id), fine = coarse + m_l + s_l*w_k."""

    def __init__(self, recorder: Recorder, df=1.0, maturity=1.0, cost="pow2"):
        from rpylib.process.process import ProcessRepresentation

        if cost not in COST_KINDS:
            raise ValueError(cost)
        self.cost = cost  # kind of the one-simulation cost per level (COST_KINDS); "pow2" = float(2**level), the historical one
        self.rec = recorder
        self.model = ScriptedModel(ProcessRepresentation.IDENDITY)
        self.fine_process = ScriptedFine(ProcessRepresentation.IDENDITY, df)
        self.level = 0
        self.maturity = maturity
        self._times = np.array([0.0, maturity])

    # --- engine-facing interface ------------------------------------------------------------------------------------
    def initialisation(self, product, max_step_epsilon=None):
        pass

    def pre_computation(self, mc_paths, product):
        # regime chosen lazily at the first simulate call of the batch; the batch state lives in the shared recorder (keyed by
        # level) so that the per-chunk copies a worker pool makes of this object all belong to the one batch
        self.rec.pending[self.level] = True

    def reset_one_simulation_cost(self):
        self.rec.measured[self.level] = None

    def one_simulation_cost(self, product):
        return level_cost(self.cost, self.level, self.rec.measured.get(self.level))

    def next_level(self, mc_paths, path_managers, product, max_step_epsilon=None):
        self.level += 1
        self.rec.next_level_calls.append(self.level)
        self.rec.pending[self.level] = True
        if path_managers is not None:
            pm = copy.deepcopy(path_managers[-1])
            pm.update(self.fine_process.process_representation)

            def coupling_deterministic_path(times_input):
                z = np.zeros_like(np.asarray(times_input, dtype=float))
                return np.array([z, z])

            pm.deterministic_path = coupling_deterministic_path
            path_managers.append(pm)

    def _draw(self):
        rec = self.rec
        lvl = self.level
        if rec.pending.get(lvl, True) or lvl not in rec.regime:
            b = rec.batches.get(lvl, 0)
            rec.batches[lvl] = b + 1
            c = rec.chooser.choose(len(rec.regimes), f"regime:l{lvl}:b{b}")
            rec.regime[lvl] = rec.regimes[c]
            rec.regime_log.append((lvl, b, rec.regime[lvl][0]))
            rec.pending[lvl] = False
            rec.batch_sizes.setdefault(lvl, []).append(0)
        rec.batch_sizes[lvl][-1] += 1
        rec.measured[lvl] = len(rec.batch_sizes[lvl]) - 1
        name, mf, sf, mdec, sdec = rec.regime[lvl]
        lst = rec.samples.setdefault(lvl, [])
        k = len(lst)
        m = mf * (2.0 ** -lvl if mdec else 1.0)
        s = sf * (2.0 ** -lvl if sdec else 1.0)
        dp = m + s * w_k(k)
        rec.simulate_levels.append(lvl)
        return k, dp

    def simulate_one_path(self):
        from rpylib.montecarlo.path import StochasticJumpPath

        k, dp = self._draw()
        fine = dp
        self.rec.samples[self.level].append((fine, 0.0))
        return StochasticJumpPath(self._times, np.array([0.0, fine]), np.array([0.0, 0.0]))

    def simulate_one_path_with_coupling(self):
        from rpylib.montecarlo.path import StochasticJumpPath

        k, dp = self._draw()
        coarse = 1000.0 * self.level + k
        fine = coarse + dp
        self.rec.samples[self.level].append((fine, coarse))
        diff = np.array([[0.0, fine], [0.0, coarse]])
        return StochasticJumpPath(self._times, diff, np.zeros((2, 2)))


# payoff kinds: name -> strikes of the call (None = forward with strike 0). "forward" and "call2" are the historical kinds;
# the others vary the DIMENSION and the ARGUMENT FORM of the strike: "calls" scalar float (dimension 1, scalar form),
# "call1" list of one strike (dimension 1, vector form), "call3" numpy array of three strikes, "call2t" tuple of two.
_PAYOFF_STRIKES = {
    "forward": None,
    "call2": (0.25, 1000.0),
    "calls": (0.25,),
    "call1": (0.25,),
    "call2t": (0.25, 1000.0),
    "call3": (0.25, 1000.0, 2000.5),
}


def payoff_dim(payoff_kind) -> int:
    """Number of components of the payoff of that kind."""
    if payoff_kind not in _PAYOFF_STRIKES:
        raise ValueError(payoff_kind)
    strikes = _PAYOFF_STRIKES[payoff_kind]
    return 1 if strikes is None else len(strikes)


def make_product(payoff_kind="forward", notional=1.0, maturity=1.0):
    from rpylib.product.payoff import Forward, PayoffType, Vanilla
    from rpylib.product.product import Product
    from rpylib.product.underlying import Spot

    if payoff_kind == "forward":
        payoff = Forward(strike=0.0)
    elif payoff_kind == "call2":
        payoff = Vanilla(strike=[0.25, 1000.0], payoff_type=PayoffType.CALL)
    elif payoff_kind == "calls":
        payoff = Vanilla(strike=0.25, payoff_type=PayoffType.CALL)
    elif payoff_kind == "call1":
        payoff = Vanilla(strike=[0.25], payoff_type=PayoffType.CALL)
    elif payoff_kind == "call2t":
        payoff = Vanilla(strike=(0.25, 1000.0), payoff_type=PayoffType.CALL)
    elif payoff_kind == "call3":
        payoff = Vanilla(strike=np.array([0.25, 1000.0, 2000.5]), payoff_type=PayoffType.CALL)
    else:
        raise ValueError(payoff_kind)
    return Product(payoff_underlying=Spot(), payoff=payoff, maturity=maturity, notional=notional)


def payoff_ref(payoff_kind, notional, df, x):
    """Reference payoff of the terminal underlying value x (what the stored row must contain)."""
    if payoff_kind == "forward":
        return np.array([notional * (x - 0.0) * df])
    if payoff_kind in _PAYOFF_STRIKES:
        return np.array([notional * max(x - k, 0.0) * df for k in _PAYOFF_STRIKES[payoff_kind]])
    raise ValueError(payoff_kind)


def payoff_ref_rows(payoff_kind, notional, df, xs):
    """payoff_ref of every terminal value of xs at once: array of shape (len(xs), payoff_dim), the same floating-point
    operations in the same order as payoff_ref (bit-identical rows)."""
    xs = np.asarray(xs, dtype=float)
    if payoff_kind == "forward":
        return (notional * (xs - 0.0) * df)[:, None]
    if payoff_kind in _PAYOFF_STRIKES:
        return np.stack([notional * np.maximum(xs - k, 0.0) * df for k in _PAYOFF_STRIKES[payoff_kind]], axis=1)
    raise ValueError(payoff_kind)


def make_control_variates(kind, notional=1.0, maturity=1.0, dim=1):
    from rpylib.product.payoff import Forward
    from rpylib.product.product import ControlVariates, Product
    from rpylib.product.underlying import Spot

    if kind == "none":
        return None
    if kind == "one":
        cvp = Product(payoff_underlying=Spot(), payoff=Forward(strike=0.125), maturity=maturity, notional=notional)
        # one price per payoff component when the payoff is a vector (product.py reads prices[k] per component)
        return ControlVariates(products=[cvp], prices=[0.3] if dim == 1 else [np.array([0.3] * dim)])
    raise ValueError(kind)


# ----------------------------------------------------------------------------------------------------------------------
# simulated worker pool (the multiprocessing branch of Engine.compute_level_l without real processes)
# ----------------------------------------------------------------------------------------------------------------------

class _Result:
    def __init__(self, value):
        self._value = value

    def get(self, timeout=None):
        return self._value


class SimulatedPool:
    """Drop-in for pathos.multiprocessing.Pool as the engines use it (same semantics as mc/c08_util.SimPool, validated
    there against the real pool, without the random-stream bookkeeping): `processes` workers (None = a 3-cpu machine), the
    initializer runs once per worker (the generator states of this process are put back afterwards); map_async cuts the
    items into chunks of ceil(len / (4 processes)) consecutive items; EVERY CHUNK works on its own dill round-trip copy of
    the task (closures are pickled by value), so nothing a worker does to the engine's objects reaches the parent - only
    the returned values do; results come back in index order and the callback runs once, in the parent."""

    log = []  # (processes, items, chunks) of every map_async since the last install

    def __init__(self, processes=None, initializer=None, initargs=()):
        import random as pyrandom

        self.n = processes if processes else 3
        st, pst = np.random.get_state(), pyrandom.getstate()
        try:
            for _ in range(self.n):
                if initializer is not None:
                    initializer(*initargs)
        finally:
            np.random.set_state(st)
            pyrandom.setstate(pst)

    def __enter__(self):
        return self

    def __exit__(self, *a):
        return False

    def map_async(self, func, iterable, chunksize=None, callback=None, error_callback=None):
        import dill

        items = list(iterable)
        if chunksize is None:
            chunksize, extra = divmod(len(items), 4 * self.n)
            if extra:
                chunksize += 1
        chunks = [items[i: i + chunksize] for i in range(0, len(items), chunksize)] if chunksize else []
        blob = dill.dumps(func)
        results = []
        for chunk in chunks:
            fcopy = dill.loads(blob)
            results.extend(fcopy(x) for x in chunk)
        SimulatedPool.log.append((self.n, len(items), len(chunks)))
        if callback is not None:
            callback(results)
        return _Result(results)


class _FakeMP:
    Pool = SimulatedPool


class pool_installed:
    """Context manager: the multilevel engine module sees SimulatedPool instead of pathos.multiprocessing."""

    def __enter__(self):
        import rpylib.montecarlo.multilevel.engine as ME

        self._saved = ME.mp
        ME.mp = _FakeMP
        del SimulatedPool.log[:]
        return SimulatedPool

    def __exit__(self, *a):
        import rpylib.montecarlo.multilevel.engine as ME

        ME.mp = self._saved
        return False
