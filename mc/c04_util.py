"""Helpers of C04: the Brownian scale a chain simulator REALLY applies, observed on simulated paths.

`equivalent_diffusion_coefficient` / `diffusion_matrix` are attributes; what enters the simulated approximation is whatever
the simulator selected by `initialisation(product, max_step_epsilon)` multiplies the Brownian variates with. That is
observed here through the public route an engine takes - `initialisation` (done by the caller), `pre_computation(n, product)`,
`simulate_one_path()` - with every random draw of the library replaced by a scripted source (mc.c15_util.ScriptedRNG: the
numpy.random module functions; constant jump counts, generic jump times, identifiable standard normals), nothing sampled.

For a path with times t_0 < ... < t_n and diffusion component d (dim x (n+1)) the columns
    y_i = (d[:, i] - d[:, i-1]) / sqrt(t_i - t_{i-1})          must be          y_i = D z_i
for ONE matrix D (scalar in dimension one), z_i the standard normals handed out for step i.  D is recovered by least squares
from all columns of all paths and the residual of the fit is reported; D D^T is what the property speaks about (the variance
per unit time of the Brownian part), so a Cholesky factor instead of a symmetric root would be as good.

The correspondence variate -> (component, step) is the only thing taken from the implementation: the variates of one
`numpy.random.normal` call are laid out either component-major (dim, n) or step-major (n, dim) [per path], or
(paths, dim, n) / (paths, n, dim) when they were all drawn by `pre_computation`; both are tried and the better fit is kept
(in dimension one they coincide).
"""
from __future__ import annotations

import numpy as np

import itertools
import math

from mc import oracle as O
from mc.c15_util import ProtocolError, ScriptedRNG, ident

__all__ = ["Rng", "simulated_brownian_scale", "ProtocolError", "recover_partition", "lengths", "alias_edges", "alias_interior", "as_inc",
           "target_law", "single_entry"]

JUMPS_PER_INTERVAL = 2
TINY_DT = 1e-9


class Rng(ScriptedRNG):
    """ScriptedRNG that never runs dry: every Poisson variate is `jumps` (JUMPS_PER_INTERVAL; 0 = the paths without any jump,
    which take the simulators' fallback branches), jump-time uniforms are the generic golden-ratio numbers in (0.05, 0.95);
    each numpy.random.normal call is recorded (flat) in `normal_calls`."""

    def __init__(self, jumps=JUMPS_PER_INTERVAL):
        super().__init__()
        self.normal_calls = []
        self.jumps = int(jumps)

    def poisson(self, lam=1.0, size=None):
        if size is None:
            return self.jumps
        return np.full(size, self.jumps, dtype=int)

    def _unit(self, size=None):
        n = self._n(size)
        vals = [ident(self.n_unit + i, 0.05, 0.95) for i in range(n)]
        self.n_unit += n
        if size is None:
            return vals[0]
        return np.array(vals, dtype=float).reshape(size)

    def normal(self, loc=0.0, scale=1.0, size=None):
        out = super().normal(loc, scale, size)
        if loc == 0.0 and scale == 1.0:
            self.normal_calls.append(np.array(out, dtype=float).ravel().copy())
        return out


def _layouts(flat, dim, n, npaths, p, per_path):
    """the two candidate (dim, n) arrangements of the variates of path p"""
    if per_path:
        if flat.size != dim * n:
            return None
        return [flat.reshape(dim, n), flat.reshape(n, dim).T]
    if flat.size != npaths * dim * n:
        return None
    return [flat.reshape(npaths, dim, n)[p], flat.reshape(npaths, n, dim)[p].T]


def simulated_brownian_scale(proc, product, dim, rng, npaths=None):
    """pre_computation + npaths simulated paths of an initialised process under the installed scripted `rng` (default: 3 paths
    in dimension one, 2 dim + 1 otherwise: a path may have ONE step only - vanilla product, no jump -, and the fit must be
    over-determined, or it could not tell the two candidate layouts of the variates apart).
    Returns {"D": (dim, dim) array, "residual": float, "columns": int, "steps": [n per path]} or {"unrecognised": reason}
    (a harness limitation, never a finding)."""
    if npaths is None:
        npaths = 3 if dim == 1 else 2 * dim + 1
    rng.normal_calls = []
    proc.pre_computation(npaths, product)
    pre = list(rng.normal_calls)
    ys, zs = [[], []], [[], []]
    steps = []
    for p in range(npaths):
        rng.normal_calls = []
        sp = proc.simulate_one_path()
        t = np.array([float(x) for x in sp.times()], dtype=float)
        d = np.atleast_2d(np.array(sp.diffusion_path, dtype=float))
        if d.shape != (dim, t.size):
            return {"unrecognised": f"diffusion path of shape {d.shape} for {t.size} times in dimension {dim}"}
        n = t.size - 1
        steps.append(n)
        during = list(rng.normal_calls)
        if len(during) == 1 and not pre:
            cand = _layouts(during[0], dim, n, npaths, p, True)
        elif not during and len(pre) == 1:
            cand = _layouts(pre[0], dim, n, npaths, p, False)
        else:
            cand = None
        if cand is None:
            return {"unrecognised": f"{len(pre)} normal calls in pre_computation, {len(during)} in the path of {n} steps"}
        dt = np.diff(t)
        keep = dt > TINY_DT  # residual duplicate times of the max-step refinement (C15's subject) carry no information
        y = np.diff(d, axis=1)[:, keep] / np.sqrt(dt[keep])
        for lay in (0, 1):
            ys[lay].append(y)
            zs[lay].append(cand[lay][:, keep])
    best = None
    for lay in (0, 1):
        y, z = np.hstack(ys[lay]), np.hstack(zs[lay])
        if y.shape[1] < dim + (dim > 1):
            return {"unrecognised": f"{y.shape[1]} usable steps for dimension {dim}"}
        sol = np.linalg.lstsq(z.T, y.T, rcond=None)[0].T  # y = D z
        res = float(np.max(np.abs(y - sol @ z))) if y.size else 0.0
        if best is None or res < best["residual"]:
            best = {"D": sol, "residual": res, "columns": int(y.shape[1]), "steps": steps,
                    "scale": float(np.max(np.abs(y))) if y.size else 0.0}
    return best


# ----------------------------------------------------------------------------------------------------------------------
# the law of the sampler actually built, recovered exactly through its single-uniform entry point (the reviewed routines of
# checks/c02_samplers.py, copied so that C04 does not depend on the layout of another check module)
# ----------------------------------------------------------------------------------------------------------------------

def recover_partition(f, n0, lo=0.0, hi=1.0, max_pieces=100000, extra=()):
    """Pieces of the piecewise-constant map f on [lo, hi): list of (start, state), starts increasing.
    f is probed at lo + i (hi-lo)/n0, at points approaching both ends geometrically (lo + (hi-lo) 2^-k and hi - (hi-lo) 2^-k,
    k = 1..60: pieces of any size glued to an end are seen) and at the caller's extra points (e.g. the column edges of an
    alias table); between neighbouring probes that differ the break point is located by bisection to 1 ulp, splitting again
    if a third state appears (a contiguous piece between two different neighbours is always found this way)."""
    top = math.nextafter(hi, -math.inf)
    xs = {lo + (hi - lo) * i / n0 for i in range(n0)}
    for k in range(1, 61):
        xs.add(lo + (hi - lo) * 2.0 ** -k)
        xs.add(hi - (hi - lo) * 2.0 ** -k)
    xs.update(x for x in extra if lo <= x <= top)
    xs.add(top)
    xs = sorted(x for x in xs if lo <= x <= top)
    vals = [f(x) for x in xs]
    pieces = [(xs[0], vals[0])]
    evals = len(xs)

    def refine(a, fa, b, fb):
        nonlocal evals
        # invariant: f(a) = fa != fb = f(b), a < b
        while True:
            m = a + (b - a) / 2
            if m <= a or m >= b:
                pieces.append((b, fb))
                return
            fm = f(m)
            evals += 1
            if fm == fa:
                a = m
            elif fm == fb:
                b = m
            else:
                refine(a, fa, m, fm)
                refine(m, fm, b, fb)
                return

    for i in range(len(xs) - 1):
        if vals[i] != vals[i + 1]:
            refine(xs[i], vals[i], xs[i + 1], vals[i + 1])
            if len(pieces) > max_pieces:
                raise RuntimeError("too many pieces")
    return pieces, evals, hi


def lengths(pieces, hi):
    out = {}
    for (s, st), nxt in zip(pieces, pieces[1:] + [(hi, None)]):
        out[st] = out.get(st, 0.0) + (nxt[0] - s)
    return out


def alias_edges(K, hi=1.0):
    """floats on both sides of every column edge x/K of an alias table with K columns (pieces start there)."""
    out = []
    for x in range(1, K):
        e = hi * x / K
        out += [e, math.nextafter(e, math.inf), math.nextafter(e, -math.inf), math.nextafter(math.nextafter(e, math.inf), math.inf)]
    return out


def alias_interior(sampler, hi=1.0):
    """one probe inside the alias piece of every column of an alias table: column x hands [x/K, (x+q_x)/K) to state x and the
    rest of the column, up to (x+1)/K, to its alias - a piece that may be far thinner than the dyadic sweep and whose two
    neighbours may be the same state (then no pair of agreeing probes would reveal it).  The table (public attributes q, K)
    is read only to PLACE probes; the partition itself is still recovered from the sampler's answers."""
    q, K = getattr(sampler, "q", None), getattr(sampler, "K", None)
    if q is None or not K:
        return []
    out = []
    for x in range(int(K)):
        qx = float(q[x])
        if 0.0 <= qx < 1.0:
            out.append(hi * (x + 0.5 * (qx + 1.0)) / K)
    return out


def as_inc(x):
    if isinstance(x, tuple):
        return tuple(int(v) for v in x)
    a = np.atleast_1d(np.asarray(x))
    return tuple(int(v) for v in a.ravel())


def target_law(proc, grid, dim):
    """dict increment(tuple) -> probability, from reference cells and the process's own truncated model."""
    lam = float(proc.intensity_of_jumps)
    if dim == 1:
        axis = grid.axes[0]
        o = grid.origin_coordinate.value
        cells, _ = O.ref_cells(axis, o, middle=grid.middle)
        out = {}
        for k, cell in enumerate(cells):
            if cell is None:
                continue
            out[(k - o,)] = max(float(proc.model.mass(float(cell[0]), float(cell[1]))), 0.0) / lam
        return out
    per_axis = []
    orig = list(grid.origin_coordinate)
    for k, axis in enumerate(grid.axes):
        # the n-d CTMCGrid.middle takes tuples; use the arithmetic mean per axis (CTMCGrid's definition for n-d grids)
        cells, central = O.ref_cells(axis, orig[k], middle=None)
        cells = [c if c is not None else central for c in cells]
        per_axis.append(cells)
    out = {}
    for idx in itertools.product(*[range(len(ax)) for ax in grid.axes]):
        inc = tuple(i - o for i, o in zip(idx, orig))
        if not any(inc):
            continue
        a = tuple(float(per_axis[k][i][0]) for k, i in enumerate(idx))
        b = tuple(float(per_axis[k][i][1]) for k, i in enumerate(idx))
        out[inc] = max(float(proc.model.mass(a, b)), 0.0) / lam
    return out


def single_entry(proc, method):
    """The single-uniform entry point of the state sampler as a function u -> increment tuple, and the upper end of its
    domain (the exact samplers of C04's alphabet)."""
    s = proc.sampling
    if method == "ALIAS":
        return (lambda u: as_inc(s.states(s._draw_with_u(u)))), 1.0
    if method == "HUFFMANNTREE":
        import rpylib.distribution.variate.huffmantree as H

        return (lambda u: as_inc(s.states(H.sample_with_u(u, s.head)[0]))), 1.0
    if method in ("INVERSION", "BINARYSEARCHTREEADAPTED1D", "BINARYSEARCHTREE"):
        return (lambda u: as_inc(s.sample_with_u(u))), 1.0
    raise ValueError(method)
