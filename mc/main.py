"""Runner: ./run.sh <Cxx> quick|thorough [--procs N]   |   ./run.sh <Cxx> --replay <file>"""
from __future__ import annotations

import fnmatch
import glob
import importlib
import json
import os
import sys
import time

from mc import core

HERE = os.path.dirname(os.path.dirname(os.path.abspath(__file__)))
# the two directories can be redirected (used when a check is pointed at a patched scratch copy of the repository, so that
# the evidence of the real tree is not overwritten)
EVIDENCE_DIR = os.environ.get("VERIF_EVIDENCE_DIR") or os.path.join(HERE, "evidence")
REPLAY_DIR = os.environ.get("VERIF_REPLAY_DIR") or os.path.join(HERE, "replays")
FINDINGS = os.path.join(HERE, "known_findings.json")


def load_module(pid: str):
    pid = pid.upper()
    hits = glob.glob(os.path.join(HERE, "checks", f"{pid.lower()}_*.py"))
    if len(hits) != 1:
        print(f"no unique check module for {pid}: {hits}")
        sys.exit(2)
    name = os.path.splitext(os.path.basename(hits[0]))[0]
    return importlib.import_module(f"checks.{name}")


def load_findings(pid: str):
    try:
        with open(FINDINGS) as f:
            data = json.load(f)
    except FileNotFoundError:
        return []
    return [e for e in data.get("findings", []) if e.get("property") == pid]


def match_finding(key: str, entries):
    for e in entries:
        if e.get("status") != "open":
            continue  # fixed entries suppress nothing
        if fnmatch.fnmatchcase(key, e["key"]):
            return e
    return None


def rotate(samples, seed, k=8):
    if not samples:
        return []
    n = len(samples)
    start = (seed * 7) % n
    idx = [(start + i * max(1, n // k)) % n for i in range(min(k, n))]
    seen, out = set(), []
    for i in idx:
        if i not in seen:
            seen.add(i)
            out.append(samples[i])
    return out


def main(argv):
    if len(argv) < 2:
        print(__doc__)
        return 2
    pid = argv[0].upper()
    mod = load_module(pid)
    seed = int(os.environ.get("VERIF_SEED", "0") or 0)

    if argv[1] == "--replay":
        with open(argv[2]) as f:
            rep = json.load(f)
        sh = core.Shard()
        sh.case = rep["case"]
        mod.check_case(sh, rep["case"])
        if rep["key"] in sh.violations:
            v = sh.violations[rep["key"]][0]
            print(f"REPRODUCED key={rep['key']}: {v['what']}")
            print(json.dumps(v["detail"], indent=1)[:4000])
            return 1
        if sh.violations:
            print("other violations on this case:", list(sh.violations))
            return 1
        print("not reproduced: the case passes on the current tree")
        return 0

    tier = argv[1]
    if tier not in ("quick", "thorough"):
        print(__doc__)
        return 2
    procs = None
    if "--procs" in argv:
        procs = int(argv[argv.index("--procs") + 1])
    os.environ["VERIF_TIER"] = tier

    t0 = time.time()
    cases = mod.cases(tier)
    total = core.run_cases(mod, cases, procs=procs, chunk=getattr(mod, "CHUNK", None))
    if hasattr(mod, "post"):
        total.case = {"sub": "post"}
        mod.post(total, tier)
        total.case = None
    wall = time.time() - t0

    # ------------------------------------------------------------------ triage against the committed findings file
    entries = load_findings(pid)
    known_hit = {}
    unknown = []
    for key, lst in total.violations.items():
        e = match_finding(key, entries)
        if e is not None:
            known_hit.setdefault(e["key"], (e, []))[1].append(key)
        else:
            unknown.append((key, lst))

    rc = 0
    nondeterminism = [k for k, _ in unknown if k == "NONDETERMINISM"]
    if nondeterminism:
        print("NONDETERMINISM: " + total.violations["NONDETERMINISM"][0]["what"])
        rc = 2

    os.makedirs(REPLAY_DIR, exist_ok=True)
    reported = 0
    for key, lst in unknown:
        if key == "NONDETERMINISM":
            continue
        v = lst[0]
        # confirm in this process, from the case alone, before raising the alarm
        sh = core.Shard()
        sh.case = v["case"]
        confirmed = True
        # only the violations that are printed (the first 25 keys) are re-run: on a badly broken tree hundreds of keys, each
        # confirmed serially by a complete case, took 10 - 40 minutes after the sweep had already decided the exit code
        if reported < 25 and v["case"] is not None and v["case"].get("sub") != "post":
            try:
                mod.check_case(sh, v["case"])
                confirmed = key in sh.violations
            except Exception:
                confirmed = key.startswith(f"{pid}:harness-exception")
        if not confirmed:
            # The case passes when it is re-run alone in this process although it failed inside the sweep: the outcome
            # depends on what ran before it in the same process (state leaking between objects - a module-level cache, a
            # shared mutable default - is exactly what the purity / history clauses of several properties exclude). On the
            # unchanged tree this never happens (every check is run under several seeds and worker counts before it is
            # registered); it is reported as a violation, flagged as order dependent.
            v = dict(v, what=v["what"] + " [order dependent: the case passes when re-run alone in a fresh sweep position]")
        path = os.path.join(REPLAY_DIR, f"{pid}-{core.digest([key, v['case']])}.json")
        with open(path, "w") as f:
            json.dump({"property": pid, "key": key, "what": v["what"], "case": v["case"], "detail": v["detail"],
                       "occurrences": total.viol_counts[key]}, f, indent=1)
        if reported < 25:
            print(f"VIOLATION property={pid} replay={path}")
            print(f"  key={key} occurrences={total.viol_counts[key]}: {v['what']}"[:600])
        reported += 1
        rc = 1  # a reported violation decides the exit code (1), whatever else (non-determinism notice) was printed

    for e in entries:
        if e.get("status") != "open":
            continue
        if e["key"] in known_hit:
            keys = known_hit[e["key"]][1]
            n = sum(total.viol_counts[k] for k in keys)
            print(f"KNOWN-FINDING: property={pid} {e['what']} [key {e['key']}; {n} occurrence(s) in this run]")
        else:
            tiers = e.get("tiers", ["quick", "thorough"])
            if tier in tiers:
                print(f"NOTE: listed finding not observed in this run: property={pid} key={e['key']}")

    # ------------------------------------------------------------------ evidence
    evaluations = int(total.counters.get("evaluations", 0)) or int(total.counters.get("cases", 0))
    cov = {
        "evaluations": evaluations,
        "distinct_nontrivial": len(total.nontrivial),
        "rule": mod.RULE,
        "samples": rotate(total.samples, seed) or [core.jsonable(c) for c in cases[:3]],
        "exhaustive": not total.caps,
        "cases": len(cases),
        "distinct_outcomes": len(total.outcomes),
        "classes_visited": sorted(total.classes),
        "counters": {k: int(v) for k, v in sorted(total.counters.items())},
        "caps_hit": total.caps,
        "notes": total.notes,
        "known_findings_observed": sorted(known_hit),
        "violation_keys": {k: int(total.viol_counts[k]) for k in total.violations},
    }
    if mod.LEVEL == "model_checking":
        cov["states"] = int(total.states)
        cov["transitions"] = int(total.transitions)
        cov["traces_validated_against_impl"] = int(total.traces)
    ev = {
        "property_id": pid,
        "tier": tier,
        "seed": seed,
        "level": mod.LEVEL,
        "coverage": cov,
        "assumptions": list(mod.ASSUMPTIONS) + COMMON_ASSUMPTIONS,
        "wall_s": round(wall, 2),
        "violations": sum(1 for k, _ in unknown if k != "NONDETERMINISM"),
    }
    os.makedirs(EVIDENCE_DIR, exist_ok=True)
    with open(os.path.join(EVIDENCE_DIR, f"{pid}.json"), "w") as f:
        json.dump(ev, f, indent=1)

    # vacuity self-check: many executions but a single observed outcome means nothing collided
    if rc == 0 and evaluations > 10 and len(total.outcomes) <= 1 and not getattr(mod, "SINGLE_OUTCOME_OK", False):
        print(f"SELF-CHECK FAILED: {evaluations} evaluations produced {len(total.outcomes)} distinct outcome(s)")
        rc = 2
    print(
        f"{pid} {tier}: cases={len(cases)} evaluations={evaluations} nontrivial={len(total.nontrivial)} "
        f"states={total.states} transitions={total.transitions} outcomes={len(total.outcomes)} "
        f"violations={ev['violations']} known={len(known_hit)} caps={len(total.caps)} wall={wall:.1f}s"
    )
    return rc


COMMON_ASSUMPTIONS = [
    "gmpy2.qdiv and tqdm are replaced by /verif/shims (exact Fraction division; identity wrapper): not installed here",
    "rpylib is imported from /repo's working tree in a fresh interpreter (/venv python 3.12, numpy 2.x, scipy 1.18)",
    "coverage is complete only for the stated finite alphabets and bounds; values outside them are not covered",
]

if __name__ == "__main__":
    sys.exit(main(sys.argv[1:]))
