"""Reference oracles written from the definitions, independent of the library's closed forms.

 integrate_density(nu, a, b, n)       integral of x^n nu(x) dx over [a,b] by adaptive quadrature of the model's own density
                                      (nu.__call__), split at 0 and +-1, with an error estimate; mpmath tanh-sinh fallback
 levy_khintchine(model_like, u)       the Levy-Khintchine integral for a declared representation
 ref_cells(axis, middle)              cell boundaries of an axis from the axis alone
 ref_rectangle_mass(copula_model, a, b)   signed-volume definition of the Levy mass of a rectangle not containing the origin
"""
from __future__ import annotations

import itertools
import math

import numpy as np
from scipy.integrate import quad

INF = math.inf


def _pieces(a, b, extra=()):
    pts = sorted({p for p in (0.0, -1.0, 1.0, *extra) if a < p < b})
    xs = [a] + pts + [b]
    return list(zip(xs[:-1], xs[1:]))


def integrate_density(nu, a, b, n=0, rtol=1e-11, extra_splits=()):
    """Integral over [a,b] of x^n nu(x) dx with nu the density `nu.__call__` (scalar argument).
    Returns (value, abs_error_estimate). Pieces touching 0 use mpmath tanh-sinh when scipy's estimate is poor."""
    a, b = float(a), float(b)
    if a == b:
        return 0.0, 0.0
    if a > b:
        raise ValueError("a > b")

    def f(x):
        return (x ** n) * float(nu(x)) if n else float(nu(x))

    total, err = 0.0, 0.0
    for lo, hi in _pieces(a, b, extra_splits):
        # refine long finite pieces geometrically towards a singular end point at 0
        v, e = quad(f, lo, hi, epsabs=0.0, epsrel=rtol, limit=400)
        if not math.isfinite(v) or e > 1e-9 * abs(v) + 1e-300:
            v2, e2 = _mp_quad(f, lo, hi)
            if e2 < e or not math.isfinite(v):
                v, e = v2, e2
        total += v
        err += e
    return total, err


def _mp_quad(f, lo, hi):
    import mpmath as mp

    mp.mp.dps = 30

    def g(x):
        return mp.mpf(f(float(x)))

    lo_ = mp.mpf(lo) if math.isfinite(lo) else (-mp.inf)
    hi_ = mp.mpf(hi) if math.isfinite(hi) else mp.inf
    try:
        v, e = mp.quad(g, [lo_, hi_], error=True, maxdegree=10)
        return float(v), float(e)
    except Exception:
        return math.nan, math.inf


def cutoff(representation_name, finite_variation):
    """The function c_R(x) of the declared Levy-Khintchine representation R (levymodel.LevyRepresentation)."""
    if representation_name == "ZERO":
        return lambda x: 0.0
    if representation_name == "CENTER":
        return lambda x: 1.0
    if representation_name == "ONEONE":
        return lambda x: 1.0 if abs(x) < 1 else 0.0
    if representation_name == "TILDE":
        if finite_variation:
            return lambda x: 0.0
        return lambda x: 1.0 if abs(x) < 1 else 0.0
    raise ValueError(representation_name)


def lk_integral(nu, u, representation_name, finite_variation, lo=-INF, hi=INF):
    """int (exp(i u x) - 1 - i u x c_R(x)) nu(dx) over [lo,hi] (u real or complex), by quadrature of real and imaginary
    parts, with the small-x Taylor form of the integrand. Returns (complex value, error estimate)."""
    c = cutoff(representation_name, finite_variation)
    iu = 1j * u

    def integrand(x):
        z = iu * x
        cx = c(x)
        if abs(z) < 1e-4:
            # exp(z) - 1 - z*cx = z(1-cx) + z^2/2 + z^3/6 + z^4/24
            val = z * (1.0 - cx) + z * z / 2 + z ** 3 / 6 + z ** 4 / 24
        else:
            val = np.exp(z) - 1.0 - z * cx
        return val * float(nu(x))

    re_tot = im_tot = err = 0.0
    for a, b in _pieces(lo, hi):
        for part in (0, 1):
            fn = (lambda x: integrand(x).real) if part == 0 else (lambda x: integrand(x).imag)
            v, e = quad(fn, a, b, epsabs=0.0, epsrel=1e-11, limit=400)
            if not math.isfinite(v) or e > 1e-9 * abs(v) + 1e-14:
                v2, e2 = _mp_quad(fn, a, b)
                if e2 < e or not math.isfinite(v):
                    v, e = v2, e2
            if part == 0:
                re_tot += v
            else:
                im_tot += v
            err += e
    return complex(re_tot, im_tot), err


# ----------------------------------------------------------------------------------------------------------------------
# cells
# ----------------------------------------------------------------------------------------------------------------------

def ref_cells(axis, origin_index, middle=None):
    """Cells of one axis from the axis alone: boundary between neighbours = arithmetic mean (or `middle(x, y)` when the
    grid defines its own), outer edges = the axis end points. Returns list of (lo, hi) per state, None for the origin."""
    ax = [float(x) for x in axis]
    mid = middle if middle is not None else (lambda x, y: 0.5 * (x + y))
    n = len(ax)
    bounds = [ax[0]] + [float(mid(ax[k], ax[k + 1])) for k in range(n - 1)] + [ax[-1]]
    cells = []
    for k in range(n):
        cells.append(None if k == origin_index else (bounds[k], bounds[k + 1]))
    central = (bounds[origin_index], bounds[origin_index + 1])
    return cells, central


# ----------------------------------------------------------------------------------------------------------------------
# copula rectangle mass, from the definition
# ----------------------------------------------------------------------------------------------------------------------

def tail_integral_1d(nu, x):
    """U(x) = nu((x,inf)) for x>0, -nu((-inf,x]) for x<0, by the margin's own closed-form integrate (checked in C09)."""
    if x == INF or x == -INF:
        return 0.0
    if x > 0:
        return float(nu.integrate(x, INF))
    if x < 0:
        return -float(nu.integrate(-INF, x))
    raise ValueError("tail integral at 0")


def _u0plus(nu):
    """U(0+) = nu((0, inf)): finite for finite activity, +inf otherwise (a closed form returning nan counts as infinite)."""
    try:
        v = float(nu.integrate(0.0, INF))
    except Exception:  # noqa
        return INF
    return v if math.isfinite(v) else INF


def ref_rectangle_mass(copula, nus, a, b):
    """Levy mass of prod (a_i, b_i] for a rectangle whose closure does not contain the origin.

    Definition (Kallsen-Tankov): for a rectangle inside one orthant, mass = |V_F( prod (U_i(a_i), U_i(b_i)] )|, the volume
    of the copula over the image rectangle. A coordinate interval straddling 0 is split into its negative part (a_i, 0-)
    and positive part (0+, b_i]; U_i(0-) = -inf, U_i(0+) = +inf, so each orthant piece is a rectangle with possibly
    infinite tail-integral corners, where the copula is evaluated at +-inf (F is defined on (-inf,inf]^d)."""
    d = len(a)
    pieces_per_axis = []
    for ai, bi, nu in zip(a, b, nus):
        ai, bi = float(ai), float(bi)
        if ai < 0 < bi:
            # negative part: tail integrals from U(ai) down to -inf (at 0-); positive part: from +inf (at 0+) down to U(bi)
            neg = (tail_integral_1d(nu, ai) if ai != -INF else 0.0, -INF)
            pos = (INF, tail_integral_1d(nu, bi) if bi != INF else 0.0)
            pieces_per_axis.append([neg, pos])
        elif bi < 0:
            ua = tail_integral_1d(nu, ai) if ai != -INF else 0.0
            ub = tail_integral_1d(nu, bi)
            pieces_per_axis.append([(ua, ub)])
        elif bi == 0:
            # (a, 0] contains the hyperplane x_i = 0, which the copula represents by |u_i| beyond the total one-sided mass
            # (u_i in [-inf, U(0-)] and [U(0+), +inf]); U(0+-) are infinite for infinite activity (second piece empty)
            ua = tail_integral_1d(nu, ai) if ai != -INF else 0.0
            u0p = _u0plus(nu)
            pieces_per_axis.append([(ua, -INF), (INF, u0p)] if math.isfinite(u0p) else [(ua, -INF)])
        else:  # ai >= 0: (a, b] with a >= 0 excludes the hyperplane; its image starts at U(a+) (finite at 0 for finite activity)
            ua = tail_integral_1d(nu, ai) if ai != 0 else _u0plus(nu)
            ub = tail_integral_1d(nu, bi) if bi != INF else 0.0
            pieces_per_axis.append([(ua, ub)])
    total = 0.0
    for combo in itertools.product(*pieces_per_axis):
        lo = [min(p) for p in combo]
        hi = [max(p) for p in combo]
        vol = 0.0
        for corner in itertools.product((0, 1), repeat=d):
            u = np.array([hi[k] if c else lo[k] for k, c in enumerate(corner)], dtype=float)
            sgn = -1.0 if (d - sum(corner)) % 2 else 1.0
            vol += sgn * float(copula(u))
        total += vol
    return total
